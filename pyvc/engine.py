"""Extraction of the real functions from /repo, name resolution, and the per-function DFS driver."""
import ast
import hashlib
import os
import time
import z3
from .sym import fresh, Obj, Node, Int, IntV, concrete_int, EvK, inb
from .values import *   # noqa
from .interp import Interp, Ctx, PathEnd, next_decisions, Obligation, strip_doc

REPO = os.environ.get('DYNETX_REPO', '/repo')

MODULE_FILES = {
    'dyngraph': 'dynetx/classes/dyngraph.py',
    'dyndigraph': 'dynetx/classes/dyndigraph.py',
    'function': 'dynetx/classes/function.py',
    'edgelist': 'dynetx/readwrite/edgelist.py',
    'node_link': 'dynetx/readwrite/json_graph/node_link.py',
    'paths': 'dynetx/algorithms/paths.py',
    'assortativity': 'dynetx/algorithms/assortativity.py',
    'decorators': 'dynetx/utils/decorators.py',
    'transform': 'dynetx/utils/transform.py',
}

# trusted models of inherited networkx methods, written in the executor's own subset.  They are the
# networkx 3.x source of these methods reduced to the statements the subset has; the thorough tier
# compares them with inspect.getsource of the installed networkx (pyvc/nxmodels.py).
NX_MODELS = '''
def has_edge(self, u, v):
    try:
        return v in self._adj[u]
    except KeyError:
        return False

def has_successor(self, u, v):
    return u in self._succ and v in self._succ[u]

def has_predecessor(self, u, v):
    return u in self._pred and v in self._pred[u]

def is_directed(self):
    return self.directed

def __contains__(self, n):
    try:
        return n in self._node
    except TypeError:
        return False

def nbunch_iter(self, nbunch=None):
    if nbunch is None:
        return iter(self._adj)
    if nbunch in self:
        return iter([nbunch])
    return iter([n for n in nbunch if n in self._adj])
'''


class FunctionInfo(object):
    def __init__(self, key, fdef, classname, modname, src):
        self.key, self.fdef, self.classname, self.modname, self.src = key, fdef, classname, modname, src
        self.sha = hashlib.sha256(src.encode()).hexdigest()[:16]
        self.decorators = [ast.unparse(d) for d in fdef.decorator_list]


class Engine(object):
    def __init__(self, repo=None):
        self.repo = repo or REPO
        self.funcs = {}          # 'module::Class.func' / 'module::func' -> FunctionInfo
        self.classes = {}        # classname -> {method name -> FunctionInfo}
        self.contracts = {}      # key -> contract object (modular calls)
        self.loopspecs = {}      # (key, ordinal) -> LoopSpec
        self.cur_key = None
        self._empty_attr = z3.Const('EMPTY_ATTR', Obj)
        self.load()

    def empty_attr(self):
        return self._empty_attr

    # ---- extraction (mechanical, every run)
    def load(self):
        for mod, rel in MODULE_FILES.items():
            path = os.path.join(self.repo, rel)
            src = open(path).read()
            tree = ast.parse(src, filename=path)
            for node in tree.body:
                if isinstance(node, ast.FunctionDef):
                    self._add(mod, None, node, src)
                elif isinstance(node, ast.ClassDef):
                    for f in node.body:
                        if isinstance(f, ast.FunctionDef):
                            self._add(mod, node.name, f, src)
        tree = ast.parse(NX_MODELS)
        self.nxmodels = {f.name: FunctionInfo('nx::' + f.name, f, None, 'nx', ast.unparse(f))
                         for f in tree.body}

    def _add(self, mod, cls, f, src):
        seg = ast.get_source_segment(src, f) or ast.unparse(f)
        key = '%s::%s%s' % (mod, cls + '.' if cls else '', f.name)
        fi = FunctionInfo(key, f, cls, mod, seg)
        self.funcs[key] = fi
        if cls:
            self.classes.setdefault(cls, {})[f.name] = fi

    def fn(self, key):
        if key not in self.funcs:
            raise Undecided('function %s no longer exists in the source tree' % key)
        return self.funcs[key]

    # ---- name resolution
    def register(self, contract, modular=True):
        """make a contract known: its loop invariants, and (modular=True) its caller-side form"""
        self.loopspecs[contract.key] = contract.loop_specs()
        if modular:
            self.contracts[contract.key] = contract

    def loop_spec(self, fr, node, ordinal=None, it=None):
        specs = self.loopspecs.get(getattr(fr, 'fkey', None))
        if specs is None:
            # a helper of the function under contract that was inlined (it has no contract of its own): the loop belongs to the caller's contract
            specs = self.loopspecs.get(self.cur_key) or {}
        tgt = ast.unparse(node.target) if hasattr(node, 'target') else 'while'
        kind = it.kind if it is not None else 'while'
        arity = len(node.target.elts) if hasattr(node, 'target') and isinstance(node.target, (ast.Tuple, ast.List)) else 1
        for k in ('%s:%s' % (kind, tgt), 'target:' + tgt, '%s/%d' % (kind, arity), kind, ordinal):
            if k in specs:
                return specs[k]
        return None

    def import_name(self, module, name, fr):
        if name in ('DynGraph', 'DynDiGraph'):
            return VType(name)
        if name == 'deepcopy':
            return VCallable(b_deepcopy, 'deepcopy')
        raise Undecided('import of %s.%s' % (module, name))

    def module_attr(self, modname, attr, fr, interp):
        if modname in ('nx', 'networkx'):
            if attr in EXC_PARENTS:
                return VExcClass(attr)
        if modname == 'tqdm' and attr == 'tqdm':
            interp.ctx.notes.append('trusted: tqdm(x, ...) iterates x')
            return VCallable(lambda i, a, k, f: a[0], 'tqdm')
        if modname in ('nx', 'networkx') and attr == 'DiGraph':
            # a fresh plain networkx DiGraph: an opaque object (only used by code that is outside the contracts)
            def mk(i, a, k, f):
                if a or k:
                    raise Undecided('nx.DiGraph with arguments')
                return VOpaque(fresh('nxdg', Obj), 'nxdigraph')
            return VCallable(mk, 'nx.DiGraph')
        if modname == 'dn' and attr in ('DynGraph', 'DynDiGraph'):
            return VType(attr)
        if modname == 'dn' and ('function::' + attr) in self.funcs:
            # dn.<name>: the functional form defined in dynetx/classes/function.py (real source, inlined)
            return self.function_value('function::' + attr)
        if modname == 'copy' and attr == 'deepcopy':
            return VCallable(b_deepcopy, 'deepcopy')
        if modname == 'copy' and attr == 'copy':
            # trusted: copy.copy(x) == x (a shallow copy of a list/tuple of hops has the same content)
            return VCallable(lambda i, a, k, f: a[0], 'copy.copy')
        raise Undecided('module attribute %s.%s' % (modname, attr))

    def global_name(self, name, fr, interp):
        if name in ('list', 'dict', 'int', 'str', 'tuple', 'set', 'bool', 'float'):
            return VType(name)
        if name in BUILTINS:
            return VCallable(BUILTINS[name], name)
        if name in ('nx', 'np', 'copy', 'dn', 'tqdm') and not (name == 'tqdm' and fr.modname == 'assortativity'):
            return VModule(name)
        if name == 'count':
            return VCallable(lambda i, a, k, f: VOpaque(fresh('counter', Obj), 'counter'), 'itertools.count')
        if name == 'chain':
            # itertools.chain(a, b, ...): the concatenation, kept as the list of its parts
            return VCallable(lambda i, a, k, f: VChain(list(a)), 'chain')
        if name == 'tqdm':
            # trusted: tqdm(iterable, ...) iterates its first argument, in order
            interp.ctx.notes.append('trusted: tqdm(x, ...) iterates x')
            return VCallable(lambda i, a, k, f: a[0], 'tqdm')
        if name in EXC_PARENTS:
            return VExcClass(name)
        if name == 'deepcopy':
            return VCallable(b_deepcopy, 'deepcopy')
        if name in ('DynGraph', 'DynDiGraph'):
            return VType(name)
        # module-level function of the same module
        key = '%s::%s' % (fr.modname, name)
        if key in self.funcs:
            return self.function_value(key)
        raise Undecided('global name %s' % name)

    def function_value(self, key):
        fi = self.funcs[key]
        eng = self

        def call(interp, argv, kwv, fr):
            c = eng.contracts.get(key)
            if c is not None and key != eng.cur_key:
                return c.apply(interp, None, argv, kwv)
            return eng.inline(interp, fi, argv, kwv)
        return VCallable(call, key)

    def inline(self, interp, fi, argv, kwv):
        if any('not_implemented' in d for d in fi.decorators):
            raise PyRaise('NetworkXNotImplemented', fi.key)
        if fi.decorators and not all('not_implemented' in d or d.startswith('open_file(') for d in fi.decorators):
            raise Undecided('decorated function %s' % fi.key)
        if any(d.startswith('open_file(') for d in fi.decorators):
            interp.ctx.notes.append('trusted: @open_file passes the opened file object in place of the path argument')
        saved = getattr(interp, 'cur_fkey', None)
        env = interp.bind_args(fi.fdef, argv, kwv)
        from .interp import Frame, _Return
        fr = Frame(fi.fdef, fi.classname, env, fi.modname)
        fr.fkey = fi.key
        is_gen = any(isinstance(n, (ast.Yield, ast.YieldFrom)) for n in ast.walk(fi.fdef))
        if is_gen:
            fr.yields = []
            ghost = getattr(interp, 'generator_ghost', None)
            if ghost and fi.key == self.cur_key:
                fr.env.update(ghost)
        interp.depth += 1
        if interp.depth > 12:
            raise Undecided('call depth')
        try:
            try:
                interp.exec_block(strip_doc(fi.fdef.body), fr)
                ret = VNone
            except _Return as r:
                ret = r.v
        finally:
            interp.depth -= 1
        if is_gen:
            out = VList(fr.yields)
            if '$ycnt' in fr.env:
                out.ghost = {k: fr.env[k] for k in ('$ycnt', '$yany', '$ylast')}
            if '$ypair' in fr.env:
                out.ghost = {'$ypair': fr.env['$ypair']}
            if '$yrow' in fr.env:
                out.ghost = {'$yrow': fr.env['$yrow']}
            if '$yseq' in fr.env:
                out.ghost = {'$yseq': fr.env['$yseq'], '$ylen': fr.env['$ylen']}
            if '$ydeg' in fr.env:
                out.ghost = {'$ydeg': fr.env['$ydeg']}
            return out
        return ret

    def bound_method(self, g, name, fr, interp):
        eng = self
        cls = g.cls
        hook = getattr(interp.ctx, 'method_hook', None)
        if hook is not None and (getattr(hook, 'names', None) is None or name in hook.names):
            # a forwarding contract observes every method call on the graph instead of executing it
            return VCallable(lambda i, a, k, f: hook(i, g, name, a, k), 'hooked::' + name)
        if name in ('adjlist_inner_dict_factory', 'adjlist_outer_dict_factory', 'node_dict_factory',
                    'node_attr_dict_factory'):
            return VCallable(lambda i, a, k, f: VDictLit([], role='row'), name)
        if name == 'edge_attr_dict_factory':
            return VCallable(lambda i, a, k, f: VDictLit([], role='edgedata'), name)
        fi = self.classes.get(cls, {}).get(name)
        if fi is None and name.startswith('_%s__' % cls):
            fi = self.classes.get(cls, {}).get(name[len(cls) + 1:])
        gv = VGraph(g)
        if fi is not None:
            def call(interp, argv, kwv, fr):
                c = eng.contracts.get(fi.key)
                if c is not None and fi.key != eng.cur_key:
                    return c.apply(interp, g, argv, kwv)
                return eng.inline(interp, fi, [gv] + argv, kwv)
            return VCallable(call, fi.key)
        if name == 'add_nodes_from':
            return VCallable(lambda i, a, k, f: eng.nx_add_nodes_from(i, g, a, k), 'nx::add_nodes_from')
        if name in self.nxmodels:
            fm = self.nxmodels[name]
            interp.ctx.notes.append('trusted nx model: ' + name)
            return VCallable(lambda i, a, k, f: eng.inline(i, fm, [gv] + a, k), 'nx::' + name)
        raise Undecided('method %s of %s has neither source, contract nor trusted model' % (name, cls))

    # ---- the DFS driver
    def run_paths(self, setup, body, finish, max_paths=4000, feas_timeout=2000):
        """Enumerate every feasible path.
        setup(ctx) -> call record; body(interp, call) -> return value (may raise PyRaise);
        finish(ctx, call, outcome) emits the exit obligations.  Returns (obligations, stats)."""
        decisions = []
        obligations = []
        stats = {'paths': 0, 'infeasible': 0, 'undecided': [], 'exits': {}, 'feas_calls': 0}
        while decisions is not None:
            ctx = Ctx(self, decisions, feas_timeout)
            interp = Interp(ctx, self)
            outcome = None
            try:
                call = setup(ctx)
                ctx.call = call
                try:
                    ret = body(interp, call)
                    outcome = ('return', ret)
                except PyRaise as ex:
                    outcome = ('raise', ex.cls, ex.info)
                finish(ctx, call, outcome)
                stats['paths'] += 1
                ek = outcome[0] if outcome[0] == 'return' else 'raise ' + outcome[1]
                stats['exits'][ek] = stats['exits'].get(ek, 0) + 1
            except PathEnd as pe:
                if str(pe) == 'infeasible':
                    stats['infeasible'] += 1
                else:
                    stats['paths'] += 1
                    stats['exits']['cut'] = stats['exits'].get('cut', 0) + 1
                    if getattr(self, 'on_cut', None):
                        self.on_cut(ctx)          # vacuity probe at the end of a loop-body / prefix path
            except Undecided as u:
                stats['undecided'].append('%s [%s]' % (u, ' '.join(ctx.trace[-4:])))
            except (RecursionError, KeyError, AttributeError, TypeError, IndexError, ValueError, z3.Z3Exception) as ex:
                # a fault inside the executor is never a verdict
                import traceback
                stats['undecided'].append('executor fault %r at %s [%s]' % (ex, traceback.format_exc().strip().splitlines()[-3:], ' '.join(ctx.trace[-4:])))
            stats['feas_calls'] += ctx.n_feas
            for ob in ctx.obligations:
                obligations.append(ob)
            if stats['paths'] + stats['infeasible'] > max_paths:
                stats['undecided'].append('path budget exceeded')
                break
            decisions = next_decisions(decisions)
        return obligations, stats


# ---- builtins -------------------------------------------------------------------------------------

def b_isinstance(interp, argv, kwv, fr):
    v, t = argv
    names = [x.name for x in (t.items if t.kind == 'tuple' else [t])]
    pyk = {'int': 'int', 'bool': 'bool', 'list': 'list', 'tuple': 'tuple', 'dict': 'dict', 'str': 'str',
           'none': 'NoneType', 'real': 'float', 'set': 'set', 'interval': 'list', 'timeline': 'list',
           'seq': 'list'}
    if v.kind == 'node' or v.kind == 'opaque':
        raise Undecided('isinstance on a node/opaque value')
    k = pyk.get(v.kind)
    if k is None:
        raise Undecided('isinstance on %s' % v.kind)
    if k == 'bool' and 'int' in names:
        return VBool(True)
    return VBool(k in names)


def b_type(interp, argv, kwv, fr):
    v = argv[0]
    pyk = {'int': 'int', 'bool': 'bool', 'list': 'list', 'tuple': 'tuple', 'dict': 'dict', 'str': 'str',
           'none': 'NoneType', 'real': 'float', 'interval': 'list', 'timeline': 'list', 'seq': 'list'}
    if v.kind == 'graph':
        return VType(v.g.cls)
    if v.kind == 'node':
        return VType('node-id-type')          # the (unknown) class of a node id
    if v.kind not in pyk:
        raise Undecided('type() of %s' % v.kind)
    return VType(pyk[v.kind])


def b_len(interp, argv, kwv, fr):
    v = argv[0]
    if v.kind == 'list' and not v.esc:
        return VInt(len(v.items))
    if v.kind in ('tuple', 'set'):
        return VInt(len(v.items))
    if v.kind == 'dict':
        return VInt(len(v.pairs))
    if v.kind == 'timeline':
        return VInt(v.g['Len'][v.r])
    if v.kind == 'interval':
        return VInt(2)
    if v.kind == 'seq':
        return VInt(v.n)
    if v.kind == 'list' and v.esc:
        return b_len(interp, [interp.esc_target(v)], kwv, fr)
    if v.kind == 'path':
        return VInt(v.w.PL(v.c))
    if v.kind == 'trp':
        return VInt(v.n)
    if v.kind in ('line', 'fields'):
        from .linemodel import line_len
        return line_len(interp, v)
    if v.kind == 'nodedict':
        from .loops import VBag
        NodeIn = v.g['NodeIn']
        v = VBag([Node], lambda a: NodeIn[a], lambda a: VNode(a), note='nodes')
    if v.kind == 'row' or (v.kind == 'bag' and len(v.sorts) == 1):
        # len of a collection that holds each member once: its cardinality, an uninterpreted non-negative integer remembered together
        # with the membership predicate (trusted counting lemma: equal membership => equal cardinality; contracts compare memberships)
        from .loops import VBag
        if v.kind == 'row':
            Cells = v.g['Cell_' + v.w][v.u]
            v = VBag([Node], lambda b: Cells[b] != 0, lambda b: VNode(b), note='neighbours')
        c = fresh('card', Int)
        interp.ctx.assume(c >= 0)
        if not hasattr(interp.ctx, 'cards'):
            interp.ctx.cards = []
        interp.ctx.cards.append((c, v))
        r = VInt(c)
        return r
    from . import seqs
    return seqs.len_of(interp, v)


def b_range(interp, argv, kwv, fr):
    if len(argv) == 1:
        lo, hi = IntV(0), argv[0].z
    elif len(argv) == 2:
        lo, hi = argv[0].z, argv[1].z
    else:
        raise Undecided('range with step')
    for a in argv:
        if a.kind != 'int':
            raise PyRaise('TypeError', 'range() argument')
    return VRange(lo, hi)


def b_list(interp, argv, kwv, fr):
    if not argv:
        return VList([])
    v = argv[0]
    if v.kind == 'pathkey':
        from .pathsmodel import VPath
        return VPath(v.w, v.c)          # list(tuple(path)): a list with the same content
    if v.kind == 'keyset':
        return v
    if v.kind == 'bag':
        return v            # list(<generator>): the same elements, each once, in the generator's (unspecified) order
    if v.kind == 'row':
        return _row_bag(v)  # list(self._adj[n]): the keys of the row, each once
    if v.kind == 'opaque' and v.tag == 'result':
        return VOpaque(v.z, 'result')       # list(<result of an observed call>): the same elements (forwarding contracts)
    items = interp.static_items(v)
    if items is not None:
        return VList(items)
    from . import seqs
    return seqs.to_seq(interp, v)


def _row_bag(v):
    from .loops import VBag
    Cells = v.g['Cell_' + v.w][v.u]
    return VBag([Node], lambda b: Cells[b] != 0, lambda b: VNode(b), note='neighbours')


def b_iter(interp, argv, kwv, fr):
    if argv[0].kind == 'seq':
        from .seqs import VSeqIter
        return VSeqIter(argv[0])
    if argv[0].kind == 'row':
        return _row_bag(argv[0])            # iter(self._adj[n]): the keys of the row, each once
    return argv[0]


def b_int(interp, argv, kwv, fr):
    v = argv[0]
    if v.kind == 'int':
        return v
    if v.kind == 'bool':
        return VInt(z3.If(v.z, 1, 0))
    if v.kind == 'real':
        return VInt(z3.If(v.z >= 0, z3.ToInt(v.z), -z3.ToInt(-v.z)))
    raise Undecided('int() of %s' % v.kind)


def b_max(interp, argv, kwv, fr):
    from . import seqs
    return seqs.minmax(interp, argv, True)


def b_min(interp, argv, kwv, fr):
    from . import seqs
    return seqs.minmax(interp, argv, False)


def b_sorted(interp, argv, kwv, fr):
    from . import seqs
    return seqs.sorted_(interp, argv, kwv)


def b_sum(interp, argv, kwv, fr):
    from . import seqs
    return seqs.sum_(interp, argv)


def b_dict(interp, argv, kwv, fr):
    if not argv:
        return VDictLit([])
    from . import seqs
    return seqs.dict_(interp, argv)


def b_deepcopy(interp, argv, kwv, fr):
    v = argv[0]
    if v.kind == 'opaque':
        # trusted: deepcopy shares no mutable object with its argument; values are == to the original
        return VOpaque(v.z, v.tag + '+copy')
    if v.kind == 'nodedict':
        nd = V()
        nd.kind = 'nodedict_copy'
        nd.src = v.g.snapshot()
        nd.attrs = v.g['NAttr']
        return nd
    raise Undecided('deepcopy of %s' % v.kind)


class VSuper(V):
    kind = 'super'

    def __init__(self, g):
        self.g = g


def b_super(interp, argv, kwv, fr):
    """super(self.__class__, self): only its __init__ is modelled (trusted networkx contract)"""
    if len(argv) == 2 and argv[1].kind == 'graph':
        return VSuper(argv[1].g)
    raise Undecided('super()')


def _super_init(interp, recv, argv, kwv):
    g = recv.g
    if not getattr(g, 'constructing', False):
        raise Undecided('super().__init__ outside a constructor')
    if argv and argv[0].kind != 'none':
        raise Undecided('graph constructed from data')
    e = HGraph(g.name, g.directed, g.cls).make_empty(True)
    for c in g.comp_names():
        if c in ('ER', 'TKey', 'TVal0', 'Ev', 'SKey', 'SCnt'):
            continue                # not networkx state: left uninitialised until the subclass assigns it
        g[c] = e[c]
    return VNone


def b_defaultdict(interp, argv, kwv, fr):
    if len(argv) == 1 and argv[0].kind == 'type' and argv[0].name == 'int':
        d = VDictLit([], role='defaultdict-int')
        return d
    if len(argv) == 1 and argv[0].kind == 'lambda':
        from .accmodel import lambda_depth, VAcc
        if lambda_depth(argv[0].node) == 3:
            return VAcc()
    raise Undecided('defaultdict factory')


def b_next(interp, argv, kwv, fr):
    from . import seqs
    return seqs.next_(interp, argv)


def b_set(interp, argv, kwv, fr):
    from . import seqs
    return seqs.set_(interp, argv)


def b_zip(interp, argv, kwv, fr):
    from . import seqs
    return seqs.zip_(interp, argv)


def b_enumerate(interp, argv, kwv, fr):
    from . import seqs
    return seqs.enumerate_(interp, argv)


def b_map(interp, argv, kwv, fr):
    f, xs = argv[0], argv[1]
    items = interp.static_items(xs)
    if items is None or f.kind != 'callable':
        raise Undecided('map() over %s' % xs.kind)
    return VMapped(f.name, items)


def b_make_str(interp, argv, kwv, fr):
    return VOpaque(fresh('str', Obj), 'str')


def b_tuple(interp, argv, kwv, fr):
    from .pathsmodel import VPathKey
    v = argv[0]
    if v.kind == 'path':
        return VPathKey(v.w, v.c)
    if v.kind == 'pathkey':
        return v
    items = interp.static_items(v)
    if items is None:
        raise Undecided('tuple() of %s' % v.kind)
    return VTuple(items)


def b_abs(interp, argv, kwv, fr):
    v = argv[0]
    if v.kind == 'int':
        return VInt(z3.If(v.z >= 0, v.z, -v.z))
    raise Undecided('abs')


def b_any(interp, argv, kwv, fr):
    """any(<adjacency>.values()): trusted networkx/Python model - the row views of an adjacency are visited one per stored row and a row
    view is truthy iff it has an entry, so the result is true iff some stored row has a cell"""
    v = argv[0]
    if len(argv) == 1 and v.kind == 'keys' and v.what == 'values' and v.base.kind == 'adj':
        from .sym import Bool
        g, w = v.base.g, v.base.w
        Row, C = g['Row_' + w], g['Cell_' + w]
        r, wa, wb = fresh('any', Bool), fresh('wa', Node), fresh('wb', Node)
        a, b = z3.Const('a?any', Node), z3.Const('b?any', Node)
        ctx = interp.ctx
        ctx.assume(z3.Implies(r, z3.And(Row[wa], C[wa][wb] != 0)), 'call')
        ctx.assume(z3.ForAll([a, b], z3.Implies(z3.And(Row[a], C[a][b] != 0), r), patterns=[C[a][b]]), 'call')
        ctx.notes.append('any() over the row views of an adjacency: true iff some stored row has an entry (trusted)')
        ctx.any_calls = getattr(ctx, 'any_calls', []) + [(g, w)]
        return VBool(r)
    raise Undecided('any() of %s' % v.kind)


BUILTINS = {
    'any': b_any,
    'isinstance': b_isinstance, 'type': b_type, 'len': b_len, 'range': b_range, 'list': b_list,
    'iter': b_iter, 'int': b_int, 'max': b_max, 'min': b_min, 'sorted': b_sorted, 'sum': b_sum,
    'dict': b_dict, 'super': b_super, 'next': b_next, 'set': b_set, 'zip': b_zip,
    'enumerate': b_enumerate, 'abs': b_abs, 'defaultdict': b_defaultdict, 'map': b_map, 'make_str': b_make_str, 'tuple': b_tuple,
}


def _ctor_store(self, g, name, v, interp):
    K = z3.K
    if name == 'time_to_edge':
        if not (v.kind == 'dict' and not v.pairs and v.role == 'defaultdict-int'):
            raise Undecided('time_to_edge must be an empty defaultdict(int)')
        g['TKey'], g['TVal0'] = K(Int, z3.BoolVal(False)), K(Int, z3.BoolVal(False))
        g['Ev'] = K(Int, K(EvK, z3.BoolVal(False)))
        return
    if name == 'snapshots':
        if not (v.kind == 'dict' and not v.pairs):
            raise Undecided('snapshots must start as an empty dict')
        g['SKey'], g['SCnt'] = K(Int, z3.BoolVal(False)), K(Int, IntV(0))
        return
    if name == 'edge_removal':
        if v.kind != 'bool':
            raise Undecided('edge_removal must be a bool')
        g['ER'] = v.z
        return
    if name == 'directed':
        if v.kind != 'bool' or not (z3.is_true(v.z) == g.directed and (z3.is_true(v.z) or z3.is_false(v.z))):
            raise Undecided('directed flag does not match the class')
        return
    raise Undecided('constructor store of %s' % name)


Engine.ctor_store = _ctor_store


def _nx_add_nodes_from(self, interp, g, argv, kwv):
    """trusted model of networkx add_nodes_from(<graph>) (frame analysis of pyvc/frames.py: `new-node rows only`): every node of
    the argument becomes a node with an empty adjacency row unless it already is one; attributes of new nodes are empty; nothing
    else changes, so the typestate of g is kept"""
    ctx = interp.ctx
    x = z3.Const('x?an', Node)
    if len(argv) == 1 and not kwv and (argv[0].kind == 'seq' or (argv[0].kind == 'list' and not argv[0].esc)):
        # add_nodes_from(<sequence of nodes>): the listed nodes become nodes with empty rows unless they already are
        from .seqs import _as_seq
        sq = _as_seq(interp, argv[0])
        k = z3.Int('k?an')
        if sq.meta.get('elem_kind') not in ('node', 'none', None):
            raise Undecided('add_nodes_from with a sequence of %s' % sq.meta.get('elem_kind'))
        listed = lambda a: z3.Exists([k], z3.And(inb(k, sq.n), sq.elem(k).z == a))
        old = g.snapshot()
        tag = '@addnodes%d' % len(ctx.hyps)
        comps = ['NodeIn', 'NAttr'] + ['Row_' + w for w in g.ws]
        g.havoc(tag, only=comps)
        ctx.assume(z3.ForAll([x], g['NodeIn'][x] == z3.Or(old['NodeIn'][x], listed(x)), patterns=[g['NodeIn'][x]]), 'call')
        ctx.assume(z3.ForAll([k], z3.Implies(inb(k, sq.n), g['NodeIn'][sq.elem(k).z]), patterns=[sq.elem(k).z]), 'call')
        for w in g.ws:
            ctx.assume(z3.ForAll([x], g['Row_' + w][x] == g['NodeIn'][x], patterns=[g['Row_' + w][x]]), 'call')
        ctx.assume(z3.ForAll([x], g['NAttr'][x] == z3.If(old['NodeIn'][x], old['NAttr'][x], self.empty_attr()), patterns=[g['NAttr'][x]]), 'call')
        ctx.notes.append('trusted nx model: add_nodes_from(sequence of nodes)')
        return VNone
    if len(argv) != 1 or argv[0].kind != 'graph' or kwv:
        raise Undecided('add_nodes_from with an argument other than a graph')
    src = argv[0].g
    old = g.snapshot()
    tag = '@addnodes%d' % len(ctx.hyps)
    comps = ['NodeIn', 'NAttr'] + ['Row_' + w for w in g.ws]
    g.havoc(tag, only=comps)
    ctx.assume(z3.ForAll([x], g['NodeIn'][x] == z3.Or(old['NodeIn'][x], src['NodeIn'][x]), patterns=[g['NodeIn'][x]]), 'call')
    for w in g.ws:
        ctx.assume(z3.ForAll([x], g['Row_' + w][x] == g['NodeIn'][x], patterns=[g['Row_' + w][x]]), 'call')
    ctx.assume(z3.ForAll([x], g['NAttr'][x] == z3.If(old['NodeIn'][x], old['NAttr'][x], self.empty_attr()), patterns=[g['NAttr'][x]]), 'call')
    ctx.notes.append('trusted nx model: add_nodes_from(graph)')
    return VNone


Engine.nx_add_nodes_from = _nx_add_nodes_from


def _call_type(self, interp, name, argv, kwv, fr):
    if name in BUILTINS:
        return BUILTINS[name](interp, argv, kwv, fr)
    if name in ('DynGraph', 'DynDiGraph'):
        return self.construct(interp, name, argv, kwv)
    raise Undecided('call of type %s' % name)


def _construct(self, interp, cls, argv, kwv):
    """DynGraph() / DynDiGraph(): through the constructor's contract (contracts/ctor.py proves it)"""
    c = self.contracts.get('%s::%s.__init__' % ('dyndigraph' if cls == 'DynDiGraph' else 'dyngraph', cls))
    if c is None:
        raise Undecided('constructor of %s has no contract' % cls)
    return c.apply(interp, None, argv, kwv)


Engine.call_type = _call_type
Engine.construct = _construct
