"""Specification vocabulary (DESIGN section 2) over HGraph states.

Every invariant conjunct comes in two forms, following the encoding rules found by the spikes
(DESIGN 1.5): a *hypothesis* form (alternation-free universals with explicit patterns, the
existential direction Skolemised with a named witness function) and a *goal* form (the property as
stated, existentials left in place), proved conjunct by conjunct.  Both forms are instantiated for
explicit pair terms (the arguments, loop-bound pairs and the Skolem query pair of the clause).
"""
import z3
from .sym import (Int, Bool, Node, Obj, Op, OP_PLUS, OP_MINUS, EvK, evk, ea, eb, eop, fresh, fresh_fun,
                  IntV, inb, FA, FA_idx, FA_idx2, EX_idx, concrete_int, b2i)
from .values import A

PRES_SORT = A(Node, A(Node, A(Int, Bool)))


class View(object):
    """ghost abstraction of one state snapshot: presence sets and Skolem witnesses"""

    def __init__(self, tag):
        self.tag = tag
        self.Pres = fresh(tag + '.Pres', PRES_SORT)
        self.wP = fresh_fun(tag + '.wP', Node, Node, Int, Int)
        self.wS = fresh_fun(tag + '.wS', Node, Node, Int, Int)
        self.wE = fresh_fun(tag + '.wE', Node, Node, Int, Int)

    def P(self, a, b):
        return self.Pres[a][b]


def tl(g, a, b, w=None):
    r = g.cell(a, b, w)
    return r, g['Len'][r], g['S'][r], g['E'][r]


def ever(g, a, b):
    return g.cell(a, b) != 0


def samepair(g, x, y, u, v):
    if g.directed:
        return z3.And(x == u, y == v)
    return z3.Or(z3.And(x == u, y == v), z3.And(x == v, y == u))


# ---- I1 shape / ownership ------------------------------------------------------------------------

def shape_h(g, nodes, pairs, quantified=True):
    """hypothesis form of I1 for the given node terms and pair terms (+ the quantified form)"""
    hs = []
    _FA = FA if quantified else (lambda *a, **k: z3.BoolVal(True))
    n_ = z3.Const('n?sh', Node)
    a_, b_ = z3.Consts('a?sh b?sh', Node)
    ws = g.ws
    for w in ws:
        Row, Cell = g['Row_' + w], g['Cell_' + w]
        hs.append(_FA([n_], Row[n_] == g['NodeIn'][n_], [Row[n_]]))
        hs.append(_FA([a_, b_], z3.Implies(Cell[a_][b_] != 0,
                                          z3.And(g['NodeIn'][a_], g['NodeIn'][b_], Cell[a_][b_] > 0,
                                                 Cell[a_][b_] < g['NextRef'], g['HasT'][Cell[a_][b_]],
                                                 g['Len'][Cell[a_][b_]] >= 1)),
                     [Cell[a_][b_]]))
    if g.directed:
        Cs, Cp = g['Cell_succ'], g['Cell_pred']
        hs.append(_FA([a_, b_], Cp[b_][a_] == Cs[a_][b_], [Cs[a_][b_]]))
        hs.append(_FA([a_, b_], Cp[b_][a_] == Cs[a_][b_], [Cp[b_][a_]]))
    else:
        C = g['Cell_adj']
        hs.append(_FA([a_, b_], C[a_][b_] == C[b_][a_], [C[a_][b_]]))
    hs.append(g['NextRef'] >= 1)
    # instances
    C = g['Cell_' + g.mainw()]
    for x in nodes:
        for w in ws:
            hs.append(g['Row_' + w][x] == g['NodeIn'][x])
    for (a, b) in pairs:
        r = C[a][b]
        hs.append(z3.Implies(r != 0, z3.And(g['NodeIn'][a], g['NodeIn'][b], r > 0, r < g['NextRef'],
                                            g['HasT'][r], g['Len'][r] >= 1)))
        if g.directed:
            hs.append(g['Cell_pred'][b][a] == r)
        else:
            hs.append(C[b][a] == r)
    # distinct pairs own distinct edge-data objects
    for i, (a, b) in enumerate(pairs):
        for (c, d) in pairs[i + 1:]:
            hs.append(z3.Implies(z3.And(C[a][b] != 0, C[a][b] == C[c][d]), samepair(g, a, b, c, d)))
    c_, d_ = z3.Consts('c?sh d?sh', Node)
    hs.append(_FA([a_, b_, c_, d_], z3.Implies(z3.And(C[a_][b_] != 0, C[a_][b_] == C[c_][d_]),
                                              samepair(g, a_, b_, c_, d_)),
                 [z3.MultiPattern(C[a_][b_], C[c_][d_])]))
    return hs


def shape_goals(g, x, y, x2, y2):
    """goal form of I1 for Skolem node x, pair (x,y) and a second pair (x2,y2)"""
    goals = {}
    C = g['Cell_' + g.mainw()]
    for w in g.ws:
        goals['row_iff_node.' + w] = g['Row_' + w][x] == g['NodeIn'][x]
    r = C[x][y]
    goals['cell_between_nodes'] = z3.Implies(r != 0, z3.And(g['NodeIn'][x], g['NodeIn'][y]))
    goals['ref_in_range'] = z3.Implies(r != 0, z3.And(r > 0, r < g['NextRef']))
    goals['has_timeline'] = z3.Implies(r != 0, z3.And(g['HasT'][r], g['Len'][r] >= 1))
    if g.directed:
        goals['mirror'] = g['Cell_pred'][y][x] == r
    else:
        goals['mirror'] = C[y][x] == r
    goals['own_edge_data'] = z3.Implies(z3.And(r != 0, r == C[x2][y2]), samepair(g, x, y, x2, y2))
    goals['nextref'] = g['NextRef'] >= 1
    return goals


# ---- I2 canonical timelines ----------------------------------------------------------------------

def canon_h(g, a, b):
    r, n, S, E = tl(g, a, b)
    return [z3.Implies(r != 0, z3.And(
        n >= 1,
        FA_idx(n, lambda i: S[i] <= E[i], pattern=lambda i: [S[i]], qid='canon.le'),
        FA_idx2(n, lambda i, j: E[i] + 1 < S[j], pattern=lambda i, j: [z3.MultiPattern(E[i], S[j])], qid='canon.sep')))]


def canon_goals(g, a, b):
    r, n, S, E = tl(g, a, b)
    return {
        'nonempty': z3.Implies(r != 0, n >= 1),
        'start_le_end': z3.Implies(r != 0, FA_idx(n, lambda i: S[i] <= E[i])),
        'separated': z3.Implies(r != 0, FA_idx2(n, lambda i, j: E[i] + 1 < S[j])),
    }


# ---- presence: link between the timeline and the ghost presence set ------------------------------

def link_h(g, view, a, b):
    r, n, S, E = tl(g, a, b)
    Pv = view.P(a, b)
    q = z3.Int('q?lk')
    i = z3.Int('i?lk')
    w = view.wP(a, b, q)
    cn = concrete_int(n)
    hs = [z3.Implies(r == 0, FA([q], z3.Not(Pv[q]), [Pv[q]]))]
    if cn is not None:
        cover = z3.Or(*[z3.And(S[IntV(k)] <= q, q <= E[IntV(k)]) for k in range(cn)]) if cn else z3.BoolVal(False)
        hs.append(z3.Implies(r != 0, FA([q], Pv[q] == cover, [Pv[q]])))
        return hs
    hs.append(z3.Implies(r != 0, FA([q], z3.Implies(Pv[q], z3.And(inb(w, n), S[w] <= q, q <= E[w])), [Pv[q]], 'link.wit')))
    hs.append(z3.Implies(r != 0, FA([i, q], z3.Implies(z3.And(inb(i, n), S[i] <= q, q <= E[i]), Pv[q]),
                                    [z3.MultiPattern(S[i], Pv[q])], 'link.cover')))
    return hs


def link_goals(g, Pexp, a, b, q):
    """the timeline of (a,b) in state g covers exactly the set Pexp (an Int->Bool array term);
    q is the Skolem query instant"""
    r, n, S, E = tl(g, a, b)
    covered = z3.And(r != 0, EX_idx(n, lambda i: z3.And(S[i] <= q, q <= E[i])))
    return {'present_if_expected': z3.Implies(Pexp[q], covered),
            'expected_if_present': z3.Implies(covered, Pexp[q])}


def link_hints(g, view, a, b, points):
    """ground instances of link_h's second universal at the last/first interval for the given instants
    (sound: instances of a hypothesis); they spare the solver a trigger hunt"""
    r, n, S, E = tl(g, a, b)
    Pv = view.P(a, b)
    hs = []
    for p in points:
        for i in (n - 1,):
            hs.append(z3.Implies(z3.And(r != 0, S[i] <= p, p <= E[i]), Pv[p]))
        w = view.wP(a, b, p)
        if concrete_int(n) is None:
            hs.append(z3.Implies(z3.And(r != 0, Pv[p]), z3.And(inb(w, n), S[w] <= p, p <= E[w])))
    return hs


# ---- I4 event log --------------------------------------------------------------------------------

def ev_at(g, q, a, b, op):
    return z3.And(g['TKey'][q], z3.Not(g['TVal0'][q]), g['Ev'][q][evk(a, b, op)])


def ev_pair(g, q, a, b, op):
    if g.directed:
        return ev_at(g, q, a, b, op)
    return z3.Or(ev_at(g, q, a, b, op), ev_at(g, q, b, a, op))


def events_h(g, view, a, b, k):
    """I4 (removal mode), index form, for the pair (a,b); k = 2: the inductive weak form the code
    maintains ("runs longer than two instants are closed"), k = 1: the property's form"""
    r, n, S, E = tl(g, a, b)
    q = z3.Int('q?ev')
    op = z3.Const('op?ev', Op)
    wS, wE = view.wS(a, b, q), view.wE(a, b, q)
    Evq = g['Ev'][q]
    pats_p = [Evq[evk(a, b, OP_PLUS)]] + ([] if g.directed else [Evq[evk(b, a, OP_PLUS)]])
    pats_m = [Evq[evk(a, b, OP_MINUS)]] + ([] if g.directed else [Evq[evk(b, a, OP_MINUS)]])
    hs = []
    hs.append(z3.Implies(r == 0, FA([q, op], z3.Not(ev_pair(g, q, a, b, op)),
                                    [Evq[evk(a, b, op)]] + ([] if g.directed else [Evq[evk(b, a, op)]]))))
    cn = concrete_int(n)
    if cn is not None:
        hs.append(z3.Implies(r != 0, FA([q], z3.Implies(ev_pair(g, q, a, b, OP_PLUS),
                                                      z3.Or(*[S[IntV(j)] == q for j in range(cn)]) if cn else False), pats_p)))
        hs.append(z3.Implies(r != 0, FA([q], z3.Implies(ev_pair(g, q, a, b, OP_MINUS),
                                                      z3.Or(*[E[IntV(j)] + 1 == q for j in range(cn)]) if cn else False), pats_m)))
    else:
        hs.append(z3.Implies(r != 0, FA([q], z3.Implies(ev_pair(g, q, a, b, OP_PLUS), z3.And(inb(wS, n), S[wS] == q)), pats_p)))
        hs.append(z3.Implies(r != 0, FA([q], z3.Implies(ev_pair(g, q, a, b, OP_MINUS), z3.And(inb(wE, n), E[wE] + 1 == q)), pats_m)))
    hs.append(z3.Implies(r != 0, FA_idx(n, lambda i: ev_pair(g, S[i], a, b, OP_PLUS), pattern=lambda i: [S[i]])))
    hs.append(z3.Implies(r != 0, FA_idx(n, lambda i: z3.Implies(E[i] - S[i] >= k, ev_pair(g, E[i] + 1, a, b, OP_MINUS)),
                                        pattern=lambda i: [E[i]])))
    if not g.directed:
        hs.append(z3.Implies(a != b, FA([q, op], z3.Not(z3.And(ev_at(g, q, a, b, op), ev_at(g, q, b, a, op))),
                                        [z3.MultiPattern(Evq[evk(a, b, op)], Evq[evk(b, a, op)])])))
    return hs


def events_goals(g, a, b, k, q, op):
    """goal form for Skolem instant q and marker op"""
    r, n, S, E = tl(g, a, b)
    goals = {
        'no_event_without_pair': z3.Implies(r == 0, z3.Not(ev_pair(g, q, a, b, op))),
        'plus_only_at_run_start': z3.Implies(z3.And(r != 0, ev_pair(g, q, a, b, OP_PLUS)),
                                             EX_idx(n, lambda i: S[i] == q)),
        'plus_at_every_run_start': z3.Implies(r != 0, FA_idx(n, lambda i: ev_pair(g, S[i], a, b, OP_PLUS))),
        'minus_only_after_run_end': z3.Implies(z3.And(r != 0, ev_pair(g, q, a, b, OP_MINUS)),
                                               EX_idx(n, lambda i: E[i] + 1 == q)),
        'runs_closed': z3.Implies(r != 0, FA_idx(n, lambda i: z3.Implies(E[i] - S[i] >= k,
                                                                       ev_pair(g, E[i] + 1, a, b, OP_MINUS)))),
    }
    if not g.directed:
        goals['one_orientation'] = z3.Implies(a != b, z3.Not(z3.And(ev_at(g, q, a, b, op), ev_at(g, q, b, a, op))))
    return goals


def tte_h(g):
    q = z3.Int('q?tte')
    return [FA([q], z3.Implies(g['TKey'][q], z3.Not(g['TVal0'][q])), [g['TKey'][q]])]


def tte_goals(g, q):
    return {'no_default_entries': z3.Implies(g['TKey'][q], z3.Not(g['TVal0'][q]))}


# ---- I3 (key half): every instant inside a run is a snapshot id ------------------------------------

def snapkeys_h(g, a, b):
    r, n, S, E = tl(g, a, b)
    q = z3.Int('q?sk')
    cn = concrete_int(n)
    if cn is not None:
        return [z3.Implies(r != 0, FA([q], z3.Implies(z3.Or(*[z3.And(S[IntV(k)] <= q, q <= E[IntV(k)]) for k in range(cn)]) if cn else z3.BoolVal(False),
                                                    g['SKey'][q]), [g['SKey'][q]]))]
    i = z3.Int('i?sk')
    return [z3.Implies(r != 0, FA([i, q], z3.Implies(z3.And(inb(i, n), S[i] <= q, q <= E[i]), g['SKey'][q]),
                                  [z3.MultiPattern(S[i], g['SKey'][q])], 'snapkeys')),
            # ground instances (first start, last end) spare a trigger hunt
            z3.Implies(z3.And(r != 0, n >= 1, S[0] <= E[0]), g['SKey'][S[0]]),
            z3.Implies(z3.And(r != 0, n >= 1, S[n - 1] <= E[n - 1]), g['SKey'][E[n - 1]])]


def snapkeys_goals(g, a, b, q):
    r, n, S, E = tl(g, a, b)
    return {'runs_are_snapshot_ids': z3.Implies(z3.And(r != 0, EX_idx(n, lambda i: z3.And(S[i] <= q, q <= E[i]))), g['SKey'][q])}


# ---- whole invariant -----------------------------------------------------------------------------

def inv_assume(ctx, g, view, nodes, pairs, shape_pairs=None, k=2, removal=True):
    """assume Inv(g) in hypothesis form, by category, instantiated for the given terms.
    ctx.inv_cats (optional) restricts the categories a caller-side proof needs (dropping hypotheses is sound)."""
    cats = getattr(ctx, 'inv_cats', None)
    if cats is not None:
        ctx.assume(shape_h(g, nodes, list(pairs) + list(shape_pairs or []), quantified=True), 'shape')
        for (a, b) in pairs:
            if 'canon' in cats:
                ctx.assume(canon_h(g, a, b), 'canon')
            if 'link' in cats:
                ctx.assume(link_h(g, view, a, b), 'link')
            if 'snapkeys' in cats:
                ctx.assume(snapkeys_h(g, a, b), 'snapkeys')
            if 'events' in cats and removal:
                ctx.assume(events_h(g, view, a, b, k), 'events')
        return
    if len(pairs) > 6:
        # many pairs: the quantified shape facts + mirror/ownership instances only (no quadratic ownership instances)
        ctx.assume(shape_h(g, nodes, [], quantified=True), 'shape')
    else:
        ctx.assume(shape_h(g, nodes, list(pairs) + list(shape_pairs or []), quantified=not getattr(ctx, 'bounded', False)), 'shape')
    ctx.assume(tte_h(g), 'tte')
    for (a, b) in pairs:
        ctx.assume(canon_h(g, a, b), 'canon')
        ctx.assume(link_h(g, view, a, b), 'link')
        ctx.assume(snapkeys_h(g, a, b), 'snapkeys')
        if removal:
            ctx.assume(events_h(g, view, a, b, k), 'events')


def all_pairs(nodes):
    return [(a, b) for a in nodes for b in nodes]


def state_unchanged(g1, g0, skip=()):
    """every component equal (the C07 clause); returns {component: formula}"""
    out = {}
    for c in g0.comp_names():
        if c in skip:
            continue
        if g1.comp[c].eq(g0.comp[c]):
            out[c] = z3.BoolVal(True)
        else:
            out[c] = g1.comp[c] == g0.comp[c]
    return out
