"""Abstract text lines for the edge-list parsers (C09 / C10 / C18): what the parsers do with a line is kept as uninterpreted functions
of the line object - position of the comment marker, the text before it, its length, the stripped text, its fields.

VLine(z)          a line of text (Obj)
  .find(c)        cpos(z): Int (>= 0: position of the first comment marker; -1: none)
  [:p]            cut(z): the text before position p   (only p = cpos(z) is supported)
  len()           length(z) >= 0
  .strip()        strip(z)
  .split(d)       VFields(z): nf(z) >= 0 fields fld(z, i)
VFields(z, k)     the list of fields with the first k already popped:  len = nf(z) - k,  pop(0) -> fld(z, k)
"""
import z3
from .sym import fresh, fresh_fun, Int, Bool, Node, Obj, IntV
from .values import *   # noqa


CURRENT_WORLD = None        # the LineWorld of the contract being verified (fields compared with string literals)


class LineWorld(object):
    def is_text(self, z, literal):
        f = self._lits.get(literal)
        if f is None:
            f = self._lits[literal] = fresh_fun('field_is_' + ''.join(ch if ch.isalnum() else '_' for ch in literal), Obj, Bool)
        return f(z)

    def __init__(self):
        self._lits = {}
        self.cpos = fresh_fun('cpos', Obj, Int)
        self.cut = fresh_fun('cut', Obj, Obj)
        self.length = fresh_fun('length', Obj, Int)
        self.strip = fresh_fun('strip', Obj, Obj)
        self.nf = fresh_fun('nfields', Obj, Int)
        self.fld = fresh_fun('field', Obj, Int, Obj)
        self.nodeof = fresh_fun('node_of', Obj, Node)          # nodetype(field)
        self.timeof = fresh_fun('time_of', Obj, Int)           # timestamptype(field)
        self.nfail = fresh_fun('node_conversion_fails', Obj, Bool)
        self.tfail = fresh_fun('time_conversion_fails', Obj, Bool)


class VLine(V):
    kind = 'line'

    def __init__(self, w, z):
        self.w, self.z = w, z


class VFields(V):
    kind = 'fields'

    def __init__(self, w, z, k=0):
        self.w, self.z, self.k = w, z, k


def m_line_find(interp, recv, argv, kwv):
    return VInt(recv.w.cpos(recv.z))


def m_line_strip(interp, recv, argv, kwv):
    return VLine(recv.w, recv.w.strip(recv.z))


def m_line_split(interp, recv, argv, kwv):
    interp.ctx.assume(recv.w.nf(recv.z) >= 0)
    return VFields(recv.w, recv.z, 0)


def m_fields_pop(interp, recv, argv, kwv):
    if not (len(argv) == 1 and argv[0].kind == 'int' and z3.is_int_value(z3.simplify(argv[0].z)) and z3.simplify(argv[0].z).as_long() == 0):
        raise Undecided('fields.pop with an index other than 0')
    if interp.ctx.branch(recv.w.nf(recv.z) - recv.k <= 0, 'IndexError(fields)'):
        raise PyRaise('IndexError', 'pop from empty list')
    x = VOpaque(recv.w.fld(recv.z, IntV(recv.k)), 'field')
    recv.k += 1
    return x


def line_slice(interp, c, lo, hi):
    if lo is None and hi is not None and hi.kind == 'int' and z3.simplify(hi.z).eq(z3.simplify(c.w.cpos(c.z))):
        return VLine(c.w, c.w.cut(c.z))
    raise Undecided('slice of a line other than line[:line.find(...)]')


def line_len(interp, v):
    if v.kind == 'line':
        interp.ctx.assume(v.w.length(v.z) >= 0)
        return VInt(v.w.length(v.z))
    return VInt(v.w.nf(v.z) - v.k)


# ---- abstract JSON records for node_link_graph (C11) -----------------------------------------------------------------------------

class RecWorld(object):
    def __init__(self):
        self.nid = fresh_fun('rec_id', Obj, Node)        # node record -> its id
        self.attrs = fresh_fun('rec_attrs', Obj, Obj)     # node record -> its other attributes
        self.src = fresh_fun('link_source', Obj, Node)
        self.tgt = fresh_fun('link_target', Obj, Node)
        self.tm = fresh_fun('link_time', Obj, Int)
        self.nonempty = fresh_fun('attrs_nonempty', Obj, Bool)   # truth value of an attribute dict


class VRecord(V):
    kind = 'record'

    def __init__(self, w, z, role, idkey='id'):
        self.w, self.z, self.role, self.idkey = w, z, role, idkey


def m_record_get(interp, recv, argv, kwv):
    # node_record.get(<id key>, default): node records carry their id (precondition of the contract)
    k = argv[0]
    if recv.role == 'node' and k.kind == 'str' and k.s == recv.idkey:
        return VNode(recv.w.nid(recv.z))
    raise Undecided('record.get(%s)' % getattr(k, 's', k.kind))


def m_record_items(interp, recv, argv, kwv):
    return VOpaque(recv.z, 'recitems:' + recv.idkey)


def record_getitem(interp, c, key):
    if c.role == 'link' and key.kind == 'str':
        if key.s == 'source':
            return VNode(c.w.src(c.z))
        if key.s == 'target':
            return VNode(c.w.tgt(c.z))
        if key.s == 'time':
            return VInt(c.w.tm(c.z))
        raise PyRaise('KeyError', key.s)
    raise Undecided('record[%s]' % getattr(key, 's', key.kind))
